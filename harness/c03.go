//go:build verif

package main

// C03, stream T: the type the builder exposes for every sub-expression (CodeBuilder.Get(-1).Type
// after the sub-expression is built) and for every variable a statement declares
// (CodeBuilder.Scope() lookup) against the type go/types assigns to the same sub-expression /
// identifier of the source text of the same program. Programs come from the typed generator of
// C01/C02 (no error injected); only programs both sides accept are compared.

import (
	"bytes"
	"fmt"
	"go/ast"
	"go/importer"
	"go/parser"
	"go/token"
	"go/types"
	"math/rand"
	"strings"

	"github.com/goplus/gogen"
)

type c03Obs struct {
	Text string `json:"text"`
	Type string `json:"builder_type"`
	Decl bool   `json:"declared_name,omitempty"`
	e    *tx    // the expression, or the initialiser of a := declaration
}

type c03Case struct {
	Source  string `json:"source"`
	Expr    string `json:"expression"`
	Builder string `json:"builder_type"`
	Go      string `json:"go_type"`
}

func c03TypeString(t types.Type) string {
	if t == nil {
		return "<nil>"
	}
	return types.TypeString(t, func(*types.Package) string { return "" })
}

func c03IsUntyped(t types.Type) bool {
	b, ok := t.(*types.Basic)
	return ok && b.Info()&types.IsUntyped != 0
}

// builder type bt against go/types' verdict tv for the same expression
func c03Agree(bt types.Type, tv types.TypeAndValue) bool {
	if bt == nil {
		return tv.IsVoid() || tv.Type == nil
	}
	if tu, ok := bt.(*types.Tuple); ok && tu.Len() == 0 {
		return tv.IsVoid()
	}
	if c03IsUntyped(bt) {
		// an untyped constant type corresponds to itself, or to the type the context gave the constant
		b := bt.(*types.Basic)
		if gb, ok := tv.Type.(*types.Basic); ok && gb.Kind() == b.Kind() {
			return true
		}
		switch b.Kind() {
		case types.UntypedNil:
			return tv.IsNil() || tv.Value == nil
		case types.UntypedBool:
			u, ok := tv.Type.Underlying().(*types.Basic)
			return ok && u.Info()&types.IsBoolean != 0
		}
		return tv.Value != nil
	}
	return c03TypeString(bt) == c03TypeString(tv.Type)
}

func c03Types(a *runArgs, m *meta) error {
	n := 700
	if a.Tier == "thorough" {
		n = 7000
	}
	r := rand.New(rand.NewSource(a.Seed + 77))
	fset := token.NewFileSet()
	pf, err := parser.ParseFile(fset, "prelude.go", c01Prelude, 0)
	if err != nil {
		return err
	}
	imp := importer.ForCompiler(fset, "source", nil)
	tpkg, err := (&types.Config{Importer: imp}).Check("main", fset, []*ast.File{pf}, nil)
	if err != nil {
		return err
	}
	ids := map[string]int{}
	seen := map[string]bool{}
	for i := 0; i < n; i++ {
		g := &c01Gen{r: r, withTS: true}
		for _, p := range c01ParamList {
			g.env = append(g.env, p)
		}
		body := g.block(2, 2+r.Intn(4))
		body = append(body, &ts{K: "ret", Es: []*tx{intLit(r), {K: "lit", Lit: "nil", Val: nil}}})
		var sb strings.Builder
		fname := fmt.Sprintf("U%d", i)
		sb.WriteString("package main\n\nfunc " + fname + "(" + c01Params + ") (int, error) {\n")
		for _, s := range body {
			s.src(&sb, "\t")
		}
		sb.WriteString("}\n")
		src := sb.String()
		if seen[src] {
			continue
		}
		seen[src] = true
		f, err := parser.ParseFile(fset, "prog.go", src, parser.SkipObjectResolution)
		if err != nil {
			continue
		}
		info := &types.Info{Types: map[ast.Expr]types.TypeAndValue{}, Defs: map[*ast.Ident]types.Object{}}
		bad := false
		(&types.Config{Importer: imp, Error: func(e error) {
			msg := e.Error()
			if strings.Contains(msg, "declared and not used") || strings.Contains(msg, "missing return") {
				return
			}
			bad = true
		}}).Check("main", fset, []*ast.File{pf, f}, info)
		if bad {
			continue
		}
		var obs []c03Obs
		var btypes []types.Type
		rejected := false
		func() {
			defer func() {
				if e := recover(); e != nil {
					rejected = true
				}
			}()
			var out bytes.Buffer
			pkg := gogen.NewPackage("main", "main", &gogen.Config{Fset: token.NewFileSet(), Importer: imp, Types: tpkg, HandleErr: func(error) { rejected = true }})
			b := &c01B{pkg: pkg, tpkg: tpkg, fset: fset, tyc: map[string]types.Type{}, param: map[string]*types.Var{}, ids: ids}
			b.onExpr = func(e *tx, t types.Type) {
				obs = append(obs, c03Obs{Text: e.src(), Type: c03TypeString(t), e: e})
				btypes = append(btypes, t)
			}
			b.onDecl = func(name string, t types.Type, init *tx) {
				obs = append(obs, c03Obs{Text: name, Type: c03TypeString(t), Decl: true, e: init})
				btypes = append(btypes, t)
			}
			var ps []*types.Var
			for _, p := range c01ParamList {
				v := types.NewParam(token.NoPos, pkg.Types, p[0], b.typ(p[1]))
				ps = append(ps, v)
				b.param[p[0]] = v
			}
			rs := types.NewTuple(types.NewParam(token.NoPos, pkg.Types, "", types.Typ[types.Int]), types.NewParam(token.NoPos, pkg.Types, "", types.Universe.Lookup("error").Type()))
			b.cb = pkg.NewFunc(nil, fname, types.NewTuple(ps...), rs, false).BodyStart(pkg)
			b.list(body)
			b.cb.End()
			if err := pkg.WriteTo(&out); err != nil {
				rejected = true
			}
		}()
		if rejected {
			m.Dist["T: valid, rejected by the builder (C02's concern)"]++
			continue
		}
		// go/types side: text of every expression / defining identifier of the function -> verdict
		gotv := map[string]types.TypeAndValue{}
		godef := map[string]types.Type{}
		ambiguous := map[string]bool{}
		base := fset.File(f.Pos()).Base()
		ast.Inspect(f, func(nd ast.Node) bool {
			switch x := nd.(type) {
			case *ast.Ident:
				if o := info.Defs[x]; o != nil {
					if _, isVar := o.(*types.Var); isVar {
						godef[x.Name] = o.Type()
					}
				}
			}
			if x, ok := nd.(ast.Expr); ok {
				if tv, ok := info.Types[x]; ok {
					text := src[int(x.Pos())-base : int(x.End())-base]
					if old, dup := gotv[text]; !dup {
						gotv[text] = tv
					} else if c03TypeString(old.Type) != c03TypeString(tv.Type) {
						ambiguous[text] = true // the same text with two types (a type-switch binding in two clauses, a constant in two contexts)
					}
				}
			}
			return true
		})
		m.DirectRuns++
		m.Dist["T: programs with every sub-expression type compared"]++
		if strings.Contains(src, ".(type)") {
			m.Dist["T: ... of which with a type switch binding"]++
		}
		if strings.Contains(src, ":= range") {
			m.Dist["T: ... of which with range variables"]++
		}
		for k, o := range obs {
			if o.Decl {
				gt, ok := godef[o.Text]
				if !ok {
					continue
				}
				m.Dist["T: declared variables compared"]++
				if c03TypeString(gt) != o.Type {
					cls := c03DeclClass(btypes[k], gt, o.e, gotv)
					if cls != nil {
						m.Known[fmt.Sprint(*cls)]++
					}
					m.Direct = append(m.Direct, directViolation{Case: 100000 + i, What: fmt.Sprintf("variable %s is declared with type %s in the builder's scope; Go gives it %s", o.Text, o.Type, c03TypeString(gt)),
						Replay: c03Case{Source: src, Expr: o.Text, Builder: o.Type, Go: c03TypeString(gt)}, Class: cls})
				}
				continue
			}
			tv, ok := gotv[o.Text]
			if ambiguous[o.Text] && !c03IsUntyped(btypes[k]) {
				// decide by membership: the builder's type must be one of Go's types for this text
				m.Dist["T: sub-expressions with several Go types in one function (matched against the set)"]++
				found := false
				ast.Inspect(f, func(nd ast.Node) bool {
					if x, isX := nd.(ast.Expr); isX && !found {
						if tv2, has := info.Types[x]; has && src[int(x.Pos())-base:int(x.End())-base] == o.Text && c03Agree(btypes[k], tv2) {
							found = true
						}
					}
					return !found
				})
				if found {
					continue
				}
			}
			if !ok {
				m.Dist["T: sub-expressions without a counterpart in the source text"]++
				continue
			}
			m.Dist["T: sub-expressions compared"]++
			if c03IsUntyped(btypes[k]) {
				m.Dist["T: ... of which untyped on the builder's side"]++
			}
			if !c03Agree(btypes[k], tv) {
				cls := c03ExprClass(btypes[k], tv, o.e)
				if cls != nil {
					m.Known[fmt.Sprint(*cls)]++
				}
				m.Direct = append(m.Direct, directViolation{Case: 100000 + i, What: fmt.Sprintf("sub-expression %s is reported with type %s; Go gives it %s", c12Trunc(o.Text, 80), o.Type, c03TypeString(tv.Type)),
					Replay: c03Case{Source: src, Expr: o.Text, Builder: o.Type, Go: c03TypeString(tv.Type)}, Class: cls})
			}
		}
	}
	return nil
}

// known-finding classes
func c03ExprClass(bt types.Type, tv types.TypeAndValue, e *tx) *int {
	// class 10: ! && || over untyped boolean operands report bool where Go keeps untyped bool
	if b, ok := bt.(*types.Basic); ok && b.Kind() == types.Bool && tv.Value == nil {
		if g, ok := tv.Type.(*types.Basic); ok && g.Kind() == types.UntypedBool && e != nil &&
			((e.K == "un" && e.Op == token.NOT) || (e.K == "bin" && (e.Op == token.LAND || e.Op == token.LOR))) {
			c := 10
			return &c
		}
	}
	return nil
}

// class 12: x := <constant expression of a named basic type> declares x with the underlying type
func c03DeclClass(bt types.Type, gt types.Type, init *tx, gotv map[string]types.TypeAndValue) *int {
	if init == nil {
		return nil
	}
	tv, ok := gotv[init.src()]
	if !ok || tv.Value == nil {
		return nil
	}
	if n, ok := gt.(*types.Named); ok {
		if _, basic := n.Underlying().(*types.Basic); basic && types.Identical(n.Underlying(), bt) {
			c := 12
			return &c
		}
	}
	return nil
}
