package main

// C04 / C03 — constant expressions: folded values and reported types of the
// builder vs the Coq transcription (K1), go/types on the same source text vs
// the Coq transcription of the spec (K2), deviations classified in Coq.

import (
	"fmt"
	"go/ast"
	"go/constant"
	"go/importer"
	"go/parser"
	"go/token"
	"go/types"
	"math/rand"
	"path/filepath"
	"runtime"
	"strings"

	"github.com/goplus/gogen"
)

func init() {
	register("C04", func(a *runArgs) error { return runC04x(a, false) })
	register("C03", func(a *runArgs) error { return runC04x(a, true) })
}

type cx struct {
	K    string `json:"k"` // lit var conv un bin
	Kind int    `json:"kind,omitempty"`
	Lit  string `json:"lit,omitempty"`
	Tok  string `json:"tok,omitempty"`
	Op   string `json:"op,omitempty"`
	X, Y *cx    `json:"x,omitempty"`
}

var c04KindNames = map[int]string{1: "bool", 2: "int", 3: "int8", 4: "int16", 5: "int32", 6: "int64", 7: "uint", 8: "uint8", 9: "uint16", 10: "uint32", 11: "uint64", 12: "uintptr", 14: "float64", 17: "string"}
var c04TypedKinds = []int{2, 3, 4, 5, 6, 7, 8, 9, 10, 11, 12, 14, 17, 1}

func (e *cx) src() string {
	switch e.K {
	case "lit":
		return e.Lit
	case "var":
		return "v" + c04KindNames[e.Kind]
	case "conv":
		return c04KindNames[e.Kind] + "(" + e.X.src() + ")"
	case "un":
		return "(" + e.Tok + e.X.src() + ")"
	}
	return "(" + e.X.src() + " " + e.Tok + " " + e.Y.src() + ")"
}

var c04UnTok = map[string]token.Token{"-": token.SUB, "+": token.ADD, "^": token.XOR, "!": token.NOT}
var c04UnCoq = map[string]string{"-": "UNeg", "+": "UPlus", "^": "UXor", "!": "UNot"}
var c04BinTok = map[string]token.Token{"+": token.ADD, "-": token.SUB, "*": token.MUL, "/": token.QUO, "%": token.REM, "&": token.AND, "|": token.OR, "^": token.XOR, "&^": token.AND_NOT,
	"<<": token.SHL, ">>": token.SHR, "<": token.LSS, "<=": token.LEQ, ">": token.GTR, ">=": token.GEQ, "==": token.EQL, "!=": token.NEQ, "&&": token.LAND, "||": token.LOR}
var c04BinCoq = map[string]string{"+": "BAdd", "-": "BSub", "*": "BMul", "/": "BQuo", "%": "BRem", "&": "BAnd", "|": "BOr", "^": "BXor", "&^": "BAndNot",
	"<<": "BShl", ">>": "BShr", "<": "BLt", "<=": "BLe", ">": "BGt", ">=": "BGe", "==": "BEq", "!=": "BNe", "&&": "BLAnd", "||": "BLOr"}
var c04BinOps = []string{"+", "-", "*", "/", "%", "&", "|", "^", "&^", "<<", ">>", "<", "<=", ">", ">=", "==", "!=", "&&", "||"}

func litKind(tok token.Token, text string) (token.Token, int) {
	switch tok {
	case token.INT:
		return tok, int(types.UntypedInt)
	case token.FLOAT:
		return tok, int(types.UntypedFloat)
	case token.CHAR:
		return tok, int(types.UntypedRune)
	case token.STRING:
		return tok, int(types.UntypedString)
	}
	return tok, int(types.UntypedBool)
}

func (e *cx) coq() string {
	switch e.K {
	case "lit":
		var tok token.Token
		switch {
		case e.Lit == "true" || e.Lit == "false":
			return fmt.Sprintf("(ELit %d%%N (CBool %s))", int(types.UntypedBool), e.Lit)
		case strings.HasPrefix(e.Lit, "'"):
			tok = token.CHAR
		case strings.HasPrefix(e.Lit, "\""):
			tok = token.STRING
		case strings.ContainsAny(e.Lit, ".e"):
			tok = token.FLOAT
		default:
			tok = token.INT
		}
		_, k := litKind(tok, e.Lit)
		v := constant.MakeFromLiteral(e.Lit, tok, 0)
		cv := coqCVal(v)
		return fmt.Sprintf("(ELit %d%%N %s)", k, strings.TrimSuffix(strings.TrimPrefix(cv, "(Some "), ")"))
	case "var":
		return fmt.Sprintf("(EVar %d%%N)", e.Kind)
	case "conv":
		return fmt.Sprintf("(EConv %d%%N %s)", e.Kind, e.X.coq())
	case "un":
		return fmt.Sprintf("(EUn %s %s)", c04UnCoq[e.Tok], e.X.coq())
	}
	return fmt.Sprintf("(EBin %s %s %s)", c04BinCoq[e.Tok], e.X.coq(), e.Y.coq())
}

type c04World struct {
	pkg  *gogen.Package
	vars map[int]*types.Var
}

func (w *c04World) build(cb *gogen.CodeBuilder, e *cx) {
	switch e.K {
	case "lit":
		switch {
		case e.Lit == "true":
			cb.Val(true)
		case e.Lit == "false":
			cb.Val(false)
		case strings.HasPrefix(e.Lit, "'"):
			cb.Val(&ast.BasicLit{Kind: token.CHAR, Value: e.Lit})
		case strings.HasPrefix(e.Lit, "\""):
			cb.Val(&ast.BasicLit{Kind: token.STRING, Value: e.Lit})
		case strings.ContainsAny(e.Lit, ".e"):
			cb.Val(&ast.BasicLit{Kind: token.FLOAT, Value: e.Lit})
		default:
			cb.Val(&ast.BasicLit{Kind: token.INT, Value: e.Lit})
		}
	case "var":
		cb.Val(w.vars[e.Kind])
	case "conv":
		cb.Typ(types.Typ[e.Kind])
		w.build(cb, e.X)
		cb.Call(1)
	case "un":
		w.build(cb, e.X)
		cb.UnaryOp(c04UnTok[e.Tok])
	default:
		w.build(cb, e.X)
		w.build(cb, e.Y)
		cb.BinaryOp(c04BinTok[e.Tok])
	}
}

func basicKindOf(t types.Type) int {
	if b, ok := types.Unalias(t).(*types.Basic); ok {
		return int(b.Kind())
	}
	return 0
}

func (w *c04World) observe(e *cx) (coq string, desc string) {
	cb := w.pkg.CB()
	defer cb.InternalStack().SetLen(0)
	var out, d string
	func() {
		defer func() {
			if x := recover(); x != nil {
				d = fmt.Sprint(x)
				if _, ok := x.(runtime.Error); ok {
					out = "Fault"
					return
				}
				out = "Rejected" // includes go/constant's string panics ("invalid binary operation ..."): a message, not a run-time fault
			}
		}()
		w.build(cb, e)
		el := cb.Get(-1)
		cv := "None"
		if el.CVal != nil {
			cv = coqCVal(el.CVal)
			if cv == "None" {
				cv = "(Some (CStr [9%N;9%N;9%N]))" // an unknown constant value
			}
		}
		out = fmt.Sprintf("(Ok %d%%N %s)", basicKindOf(el.Type), cv)
		d = fmt.Sprintf("%v = %v", el.Type, el.CVal)
	}()
	return out, d
}

const c04Decls = `package p
var vbool bool
var vint int
var vint8 int8
var vint16 int16
var vint32 int32
var vint64 int64
var vuint uint
var vuint8 uint8
var vuint16 uint16
var vuint32 uint32
var vuint64 uint64
var vuintptr uintptr
var vfloat64 float64
var vstring string
`

func c04Reference(src string) (coq string, defaulted bool, desc string) {
	check := func(text string) (*types.Info, *ast.File, []string) {
		fset := token.NewFileSet()
		f, err := parser.ParseFile(fset, "p.go", text, 0)
		if err != nil {
			return nil, nil, []string{err.Error()}
		}
		var errs []string
		info := &types.Info{Types: map[ast.Expr]types.TypeAndValue{}}
		conf := types.Config{Error: func(e error) { errs = append(errs, e.Error()) }}
		conf.Check("p", fset, []*ast.File{f}, info)
		return info, f, errs
	}
	last := func(f *ast.File) ast.Expr {
		gd := f.Decls[len(f.Decls)-1].(*ast.GenDecl)
		return gd.Specs[0].(*ast.ValueSpec).Values[0]
	}
	info, f, errs := check(c04Decls + "const _ = " + src + "\n")
	if len(errs) == 0 {
		tv := info.Types[last(f)]
		return fmt.Sprintf("(SOk %d%%N %s)", basicKindOf(tv.Type), coqCVal(tv.Value)), false, fmt.Sprintf("%v = %v", tv.Type, tv.Value)
	}
	notConst := false
	for _, e := range errs {
		if strings.Contains(e, "is not constant") {
			notConst = true
		}
	}
	if !notConst || len(errs) > 1 {
		return "SRej", false, strings.Join(errs, "; ")
	}
	info, f, errs = check(c04Decls + "var _ = " + src + "\n")
	if len(errs) > 0 {
		return "SRej", false, strings.Join(errs, "; ")
	}
	tv := info.Types[last(f)]
	return fmt.Sprintf("(SOk %d%%N %s)", basicKindOf(tv.Type), coqCVal(tv.Value)), true, fmt.Sprintf("%v", tv.Type)
}

var c04IntLits = []string{"0", "1", "2", "7", "127", "128", "255", "256", "32767", "65536", "2147483647", "2147483648", "4294967296",
	"9223372036854775807", "9223372036854775808", "18446744073709551615", "18446744073709551616", "1267650600228229401496703205376"}
var c04FloatLits = []string{"0.0", "0.5", "2.0", "2.5", "1e3", "0.25"}

func c04Atom(r *rand.Rand) *cx {
	switch x := r.Intn(100); {
	case x < 35:
		return &cx{K: "lit", Lit: c04IntLits[r.Intn(len(c04IntLits))]}
	case x < 45:
		return &cx{K: "lit", Lit: c04FloatLits[r.Intn(len(c04FloatLits))]}
	case x < 50:
		return &cx{K: "lit", Lit: []string{"'a'", "'\\x00'", "'z'"}[r.Intn(3)]}
	case x < 54:
		return &cx{K: "lit", Lit: []string{`"a"`, `"b"`, `""`}[r.Intn(3)]}
	case x < 58:
		return &cx{K: "lit", Lit: []string{"true", "false"}[r.Intn(2)]}
	case x < 72:
		return &cx{K: "var", Kind: c04TypedKinds[r.Intn(len(c04TypedKinds))]}
	default: // typed constant: conversion of a small literal
		k := c04TypedKinds[r.Intn(12)]
		lit := c04IntLits[r.Intn(9)]
		if k == 14 && r.Intn(2) == 0 {
			lit = c04FloatLits[r.Intn(len(c04FloatLits))]
		}
		return &cx{K: "conv", Kind: k, X: &cx{K: "lit", Lit: lit}}
	}
}

func c04Gen(r *rand.Rand, d int) *cx {
	if d <= 0 || r.Intn(4) == 0 {
		return c04Atom(r)
	}
	switch x := r.Intn(10); {
	case x < 2:
		return &cx{K: "un", Tok: []string{"-", "+", "^", "!"}[r.Intn(4)], X: c04Gen(r, d-1)}
	case x < 3:
		return &cx{K: "conv", Kind: c04TypedKinds[r.Intn(12)], X: c04Gen(r, d-1)}
	default:
		op := c04BinOps[r.Intn(len(c04BinOps))]
		y := c04Gen(r, d-1)
		if (op == "<<" || op == ">>") && r.Intn(4) != 0 {
			y = &cx{K: "lit", Lit: []string{"0", "1", "2", "7", "63", "64", "100"}[r.Intn(7)]}
		}
		x := c04Gen(r, d-1)
		if (op == "<<" || op == ">>") && c04HasVar(y) && !c04HasVarOrConv(x) {
			// a non-constant shift of an untyped constant takes its type from the context (spec, "Operators"):
			// the specification model types expressions bottom-up, so the operand is given a type here
			x = &cx{K: "conv", Kind: 2, X: x}
		}
		return &cx{K: "bin", Tok: op, X: x, Y: y}
	}
}

type c04Case struct {
	Src  string `json:"source"`
	E    *cx    `json:"expr"`
	Obs  string `json:"observed"`
	Ref  string `json:"reference"`
	ObsD string `json:"observed_text"`
	RefD string `json:"reference_text"`
}

func runC04x(a *runArgs, withTypes bool) error {
	nRandom, depth := 2500, 2
	if a.Tier == "thorough" {
		nRandom, depth = 60000, 4
	}
	prop := "C04"
	imp := importer.ForCompiler(token.NewFileSet(), "source", nil)
	w := &c04World{vars: map[int]*types.Var{}}
	w.pkg = gogen.NewPackage("", "p", &gogen.Config{Fset: token.NewFileSet(), Importer: imp})
	for k, n := range c04KindNames {
		w.vars[k] = types.NewVar(token.NoPos, w.pkg.Types, "v"+n, types.Typ[k])
	}
	r := rand.New(rand.NewSource(a.Seed))
	cw := newCaseWriter(a.Out, prop, "From Coq Require Import QArith.\nFrom GV Require Import Go.Kinds C04.Model C04.Check.\nClose Scope Q_scope.", "c04case", 400,
		"k1_bad cases", "k2_bad cases", "dev_list cases")
	cl := newCaseLog(a.Out)
	defer cl.close()
	m := &meta{Property: prop, Seed: a.Seed, Tier: a.Tier, PerShard: 400,
		Strata: map[string]int{}, Dist: map[string]int{}, Known: map[string]int{},
		Rule: "grid (seed independent): every unary/binary operator x pairs of operand categories (untyped int/float/rune/string/bool literals at the integer-type boundaries, typed constants of every integer kind and float64, variables of every basic kind) at depth 1; then random nesting; distinct = distinct source texts; non-trivial = contains an operator"}
	seen := map[string]bool{}
	idx := 0
	emit := func(e *cx, stratum string) {
		src := e.src()
		if seen[src] {
			return
		}
		seen[src] = true
		obs, od := w.observe(e)
		ref, dflt, rd := c04Reference(src)
		c := c04Case{Src: src, E: e, Obs: obs, Ref: ref, ObsD: od, RefD: rd}
		cw.add(fmt.Sprintf("mkCase %s %s %s %s", e.coq(), obs, ref, coqBool(dflt)))
		cl.add(c)
		m.Strata[stratum]++
		m.Dist["obs:"+strings.SplitN(strings.Trim(obs, "()"), " ", 2)[0]+"/ref:"+strings.SplitN(strings.Trim(ref, "()"), " ", 2)[0]]++
		m.DirectRuns++
		if len(m.Samples) < 4 && idx%211 == 7 {
			m.Samples = append(m.Samples, c)
		}
		idx++
	}
	// grid
	var atoms []*cx
	for _, l := range []string{"0", "1", "2", "127", "128", "255", "256", "9223372036854775808", "18446744073709551616"} {
		atoms = append(atoms, &cx{K: "lit", Lit: l})
	}
	for _, l := range []string{"0.0", "0.5", "2.0", "2.5"} {
		atoms = append(atoms, &cx{K: "lit", Lit: l})
	}
	atoms = append(atoms, &cx{K: "lit", Lit: "'a'"}, &cx{K: "lit", Lit: `"a"`}, &cx{K: "lit", Lit: "true"})
	for _, k := range []int{2, 3, 8, 11, 14} {
		for _, l := range []string{"0", "1", "127", "200"} {
			atoms = append(atoms, &cx{K: "conv", Kind: k, X: &cx{K: "lit", Lit: l}})
		}
		atoms = append(atoms, &cx{K: "var", Kind: k})
	}
	atoms = append(atoms, &cx{K: "var", Kind: 17}, &cx{K: "var", Kind: 1})
	step := 1
	if a.Tier != "thorough" {
		step = 3
	}
	n := 0
	for _, x := range atoms {
		for _, op := range []string{"-", "+", "^", "!"} {
			emit(&cx{K: "un", Tok: op, X: x}, "grid-unary")
		}
		for _, y := range atoms {
			for _, op := range c04BinOps {
				n++
				if n%step == 0 {
					emit(&cx{K: "bin", Tok: op, X: x, Y: y}, "grid-binary")
				}
			}
		}
	}
	for i := 0; i < nRandom; i++ {
		emit(c04Gen(r, 1+r.Intn(depth)), "random")
	}
	cw.flush()
	m.Cases = idx
	m.Distinct = idx
	m.Files = cw.files
	if withTypes {
		if err := c03Types(a, m); err != nil {
			return err
		}
	}
	return writeJSON(filepath.Join(a.Out, "meta.json"), m)
}


func c04HasVar(e *cx) bool {
	if e == nil {
		return false
	}
	return e.K == "var" || c04HasVar(e.X) || c04HasVar(e.Y)
}

func c04HasVarOrConv(e *cx) bool {
	if e == nil {
		return false
	}
	return e.K == "var" || e.K == "conv" || c04HasVarOrConv(e.X) || c04HasVarOrConv(e.Y)
}
