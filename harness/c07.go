package main

// C07 — generic inference.  A package "gp" with random generic functions is generated; for each
// call (typed arguments built from a ground substitution, untyped constants for bare type
// parameters, optional explicit leading type arguments, optional perturbation) the type arguments
// inferred by the builder are compared with go/types on the corresponding source (direct oracle) and
// with the Coq model of inference (K1 builder vs model, K2 go/types vs model).

import (
	"fmt"
	"go/ast"
	"go/parser"
	"go/token"
	"go/types"
	"math/rand"
	"path/filepath"
	"strings"

	"github.com/goplus/gogen"
)

func init() { register("C07", runC07) }

// ground type terms shared by the three sides
type c07Ty struct {
	K    string   `json:"k"` // atom slice ptr arr chan map func param
	Name string   `json:"name,omitempty"`
	N    int      `json:"n,omitempty"`
	Sub  []*c07Ty `json:"sub,omitempty"`
}

var c07Atoms = []struct {
	name string
	id   int
}{{"int", 1}, {"int32", 2}, {"float64", 3}, {"complex128", 4}, {"string", 5}, {"bool", 6}, {"int64", 7}, {"gp.MyInt", 10}, {"gp.MyStr", 11}, {"gp.MySlice", 12}, {"gp.MyMap", 13}}

func c07AtomID(name string) int {
	if name == "rune" {
		return 2
	}
	for _, a := range c07Atoms {
		if a.name == name || "gp."+name == a.name {
			return a.id
		}
	}
	return 0
}

func (t *c07Ty) src(tp []string) string { // Go source; tp = names of type parameters
	switch t.K {
	case "atom":
		return t.Name
	case "param":
		return tp[t.N]
	case "slice":
		return "[]" + t.Sub[0].src(tp)
	case "ptr":
		return "*" + t.Sub[0].src(tp)
	case "arr":
		return fmt.Sprintf("[%d]%s", t.N, t.Sub[0].src(tp))
	case "chan":
		return "chan " + t.Sub[0].src(tp)
	case "map":
		return "map[" + t.Sub[0].src(tp) + "]" + t.Sub[1].src(tp)
	}
	return "func(" + t.Sub[0].src(tp) + ") " + t.Sub[1].src(tp)
}

func (t *c07Ty) coq() string {
	switch t.K {
	case "atom":
		return fmt.Sprintf("(GAtom %d)", c07AtomID(t.Name))
	case "param":
		return fmt.Sprintf("(GParam %d)", t.N)
	case "slice":
		return "(GSlice " + t.Sub[0].coq() + ")"
	case "ptr":
		return "(GPtr " + t.Sub[0].coq() + ")"
	case "arr":
		return fmt.Sprintf("(GArr %d %s)", t.N, t.Sub[0].coq())
	case "chan":
		return "(GChan " + t.Sub[0].coq() + ")"
	case "map":
		return "(GMap " + t.Sub[0].coq() + " " + t.Sub[1].coq() + ")"
	}
	return "(GFunc1 " + t.Sub[0].coq() + " " + t.Sub[1].coq() + ")"
}

func (t *c07Ty) subst(tau []*c07Ty) *c07Ty {
	if t.K == "param" {
		return tau[t.N]
	}
	r := &c07Ty{K: t.K, Name: t.Name, N: t.N}
	for _, s := range t.Sub {
		r.Sub = append(r.Sub, s.subst(tau))
	}
	return r
}

// go/types type of a ground term, over the given instance of package gp
func (t *c07Ty) goType(gp *types.Package) types.Type {
	switch t.K {
	case "atom":
		if strings.HasPrefix(t.Name, "gp.") {
			return gp.Scope().Lookup(t.Name[3:]).Type()
		}
		return types.Universe.Lookup(t.Name).Type()
	case "slice":
		return types.NewSlice(t.Sub[0].goType(gp))
	case "ptr":
		return types.NewPointer(t.Sub[0].goType(gp))
	case "arr":
		return types.NewArray(t.Sub[0].goType(gp), int64(t.N))
	case "chan":
		return types.NewChan(types.SendRecv, t.Sub[0].goType(gp))
	case "map":
		return types.NewMap(t.Sub[0].goType(gp), t.Sub[1].goType(gp))
	}
	p := types.NewTuple(types.NewParam(token.NoPos, nil, "", t.Sub[0].goType(gp)))
	r := types.NewTuple(types.NewParam(token.NoPos, nil, "", t.Sub[1].goType(gp)))
	return types.NewSignatureType(nil, nil, nil, p, r, false)
}

func c07FromGo(t types.Type) (*c07Ty, bool) {
	switch t := t.(type) {
	case *types.Basic:
		if c07AtomID(t.Name()) != 0 {
			name := t.Name()
			if name == "rune" {
				name = "int32"
			}
			return &c07Ty{K: "atom", Name: name}, true
		}
	case *types.Named:
		if t.Obj().Pkg() != nil && c07AtomID("gp."+t.Obj().Name()) != 0 {
			return &c07Ty{K: "atom", Name: "gp." + t.Obj().Name()}, true
		}
	case *types.Slice:
		e, ok := c07FromGo(t.Elem())
		return &c07Ty{K: "slice", Sub: []*c07Ty{e}}, ok
	case *types.Pointer:
		e, ok := c07FromGo(t.Elem())
		return &c07Ty{K: "ptr", Sub: []*c07Ty{e}}, ok
	case *types.Array:
		e, ok := c07FromGo(t.Elem())
		return &c07Ty{K: "arr", N: int(t.Len()), Sub: []*c07Ty{e}}, ok
	case *types.Chan:
		e, ok := c07FromGo(t.Elem())
		return &c07Ty{K: "chan", Sub: []*c07Ty{e}}, ok && t.Dir() == types.SendRecv
	case *types.Map:
		k, ok1 := c07FromGo(t.Key())
		v, ok2 := c07FromGo(t.Elem())
		return &c07Ty{K: "map", Sub: []*c07Ty{k, v}}, ok1 && ok2
	case *types.Signature:
		if t.Params().Len() == 1 && t.Results().Len() == 1 && !t.Variadic() {
			p, ok1 := c07FromGo(t.Params().At(0).Type())
			r, ok2 := c07FromGo(t.Results().At(0).Type())
			return &c07Ty{K: "func", Sub: []*c07Ty{p, r}}, ok1 && ok2
		}
	}
	return &c07Ty{K: "atom", Name: "int"}, false
}

type c07Fn struct {
	Name   string   `json:"name"`
	Constr []string `json:"constraints"` // any comparable number core:<type with params>
	Core   []*c07Ty `json:"-"`
	Params []*c07Ty `json:"params"`
}

var c07TP = []string{"T", "U", "V"}

func (f *c07Fn) decl() string {
	var tps, ps []string
	for i, c := range f.Constr {
		cs := c
		switch {
		case c == "number":
			cs = "Number"
		case strings.HasPrefix(c, "core"):
			cs = "~" + f.Core[i].src(c07TP)
		}
		tps = append(tps, c07TP[i]+" "+cs)
	}
	for i, p := range f.Params {
		ps = append(ps, fmt.Sprintf("p%d %s", i, p.src(c07TP)))
	}
	return fmt.Sprintf("func %s[%s](%s) R%d[%s] { panic(0) }", f.Name, strings.Join(tps, ", "), strings.Join(ps, ", "), len(f.Constr), strings.Join(c07TP[:len(f.Constr)], ", "))
}

func c07GenParamType(r *rand.Rand, ntp, depth int, needParam int) *c07Ty {
	if needParam >= 0 && depth <= 0 {
		return &c07Ty{K: "param", N: needParam}
	}
	leaf := func() *c07Ty {
		if needParam >= 0 {
			return &c07Ty{K: "param", N: needParam}
		}
		if r.Intn(3) == 0 {
			return &c07Ty{K: "atom", Name: []string{"int", "string", "float64"}[r.Intn(3)]}
		}
		return &c07Ty{K: "param", N: r.Intn(ntp)}
	}
	if depth <= 0 {
		return leaf()
	}
	switch r.Intn(8) {
	case 0:
		return &c07Ty{K: "slice", Sub: []*c07Ty{c07GenParamType(r, ntp, depth-1, needParam)}}
	case 1:
		return &c07Ty{K: "ptr", Sub: []*c07Ty{c07GenParamType(r, ntp, depth-1, needParam)}}
	case 2:
		return &c07Ty{K: "arr", N: 1 + r.Intn(3), Sub: []*c07Ty{c07GenParamType(r, ntp, depth-1, needParam)}}
	case 3:
		return &c07Ty{K: "chan", Sub: []*c07Ty{c07GenParamType(r, ntp, depth-1, needParam)}}
	case 4:
		return &c07Ty{K: "map", Sub: []*c07Ty{{K: "atom", Name: "string"}, c07GenParamType(r, ntp, depth-1, needParam)}}
	case 5:
		return &c07Ty{K: "func", Sub: []*c07Ty{c07GenParamType(r, ntp, depth-1, -1), c07GenParamType(r, ntp, depth-1, needParam)}}
	}
	return leaf()
}

func c07GenFn(r *rand.Rand, name string) *c07Fn {
	ntp := 1 + r.Intn(3)
	f := &c07Fn{Name: name, Core: make([]*c07Ty, ntp)}
	for i := 0; i < ntp; i++ {
		switch r.Intn(7) {
		case 0:
			f.Constr = append(f.Constr, "comparable")
		case 1:
			f.Constr = append(f.Constr, "number")
		case 2:
			if i+1 < ntp { // S ~[]E with E a later parameter
				f.Constr = append(f.Constr, "core")
				switch r.Intn(3) {
				case 0:
					f.Core[i] = &c07Ty{K: "slice", Sub: []*c07Ty{{K: "param", N: i + 1}}}
				case 1:
					f.Core[i] = &c07Ty{K: "map", Sub: []*c07Ty{{K: "atom", Name: "string"}, {K: "param", N: i + 1}}}
				default:
					f.Core[i] = &c07Ty{K: "ptr", Sub: []*c07Ty{{K: "param", N: i + 1}}}
				}
				continue
			}
			f.Constr = append(f.Constr, "any")
		default:
			f.Constr = append(f.Constr, "any")
		}
	}
	np := 1 + r.Intn(3)
	for i := 0; i < np; i++ {
		need := -1
		if i < ntp && r.Intn(4) > 0 {
			need = i
		}
		f.Params = append(f.Params, c07GenParamType(r, ntp, r.Intn(3), need))
	}
	return f
}

func c07Source(fns []*c07Fn) string {
	var b strings.Builder
	b.WriteString("package gp\n\ntype MyInt int\ntype MyStr string\ntype MySlice []int\ntype MyMap map[string]int\ntype Number interface{ ~int | ~int64 | ~float64 }\n")
	b.WriteString("type R1[A any] struct{}\ntype R2[A, B any] struct{}\ntype R3[A, B, C any] struct{}\n")
	b.WriteString("func First[T any](xs ...T) R1[T] { panic(0) }\nfunc Tag[T any](k string, xs ...T) R1[T] { panic(0) }\nfunc Sum[T ~int | ~float64](init T, xs ...T) R1[T] { panic(0) }\n")
	b.WriteString("func Loader[T1 any, T2 any](p1 T1) T2 { panic(0) }\nfunc At[S ~[]E, E any](s S, i int) E { panic(0) }\nfunc SumOf[S ~[]E, E Number](s S) E { panic(0) }\nfunc Find[S ~[]E, E comparable](s S, e E) int { panic(0) }\nfunc Pair2[K comparable, V any](k K, v V) R2[K, V] { panic(0) }\n")
	for _, f := range fns {
		b.WriteString(f.decl() + "\n")
	}
	return b.String()
}

type c07Arg struct {
	Const string `json:"const,omitempty"` // source text of an untyped constant
	Kind  int    `json:"kind,omitempty"`
	T     *c07Ty `json:"type,omitempty"`
}

var c07ConstPool = []struct {
	text string
	kind int
	val  any
}{{"1", 1, 1}, {"'x'", 2, 'x'}, {"2.5", 3, 2.5}, {`"s"`, 5, "s"}, {"true", 6, true}, {"7", 1, 7}}

type c07Case struct {
	Fn       *c07Fn   `json:"function"`
	Decl     string   `json:"declaration"`
	Args     []c07Arg `json:"args"`
	Explicit []*c07Ty `json:"explicit_type_arguments,omitempty"`
	Call     string   `json:"call"`
	Builder  string   `json:"builder"`
	Go       string   `json:"go"`
}

func c07Ground(r *rand.Rand, depth int) *c07Ty {
	if depth <= 0 || r.Intn(2) == 0 {
		return &c07Ty{K: "atom", Name: c07Atoms[r.Intn(len(c07Atoms))].name}
	}
	switch r.Intn(5) {
	case 0:
		return &c07Ty{K: "slice", Sub: []*c07Ty{c07Ground(r, depth-1)}}
	case 1:
		return &c07Ty{K: "ptr", Sub: []*c07Ty{c07Ground(r, depth-1)}}
	case 2:
		return &c07Ty{K: "map", Sub: []*c07Ty{{K: "atom", Name: "string"}, c07Ground(r, depth-1)}}
	case 3:
		return &c07Ty{K: "chan", Sub: []*c07Ty{c07Ground(r, depth-1)}}
	}
	return &c07Ty{K: "arr", N: 2, Sub: []*c07Ty{c07Ground(r, depth-1)}}
}

func runC07(a *runArgs) error {
	nFn, perFn := 60, 8
	if a.Tier == "thorough" {
		nFn, perFn = 400, 25
	}
	r := rand.New(rand.NewSource(a.Seed))
	var fns []*c07Fn
	for i := 0; i < nFn; i++ {
		fns = append(fns, c07GenFn(r, fmt.Sprintf("G%d", i)))
	}
	src := c07Source(fns)
	fset := token.NewFileSet()
	mk := func() (*types.Package, error) {
		f, err := parser.ParseFile(fset, "gp.go", src, 0)
		if err != nil {
			return nil, err
		}
		return (&types.Config{}).Check("gp", fset, []*ast.File{f}, nil)
	}
	gpB, err := mk() // the instance the builder imports
	if err != nil {
		return fmt.Errorf("gp source: %v\n%s", err, src)
	}
	gpG, _ := mk() // the instance of the go/types oracle
	impB := &c15MemImporter{pkgs: map[string]*types.Package{"gp": gpB}, next: irImporterOrNew()}
	impG := &c15MemImporter{pkgs: map[string]*types.Package{"gp": gpG}, next: irImporterOrNew()}

	m := &meta{Property: "C07", Seed: a.Seed, Tier: a.Tier, PerShard: 250,
		Strata: map[string]int{}, Dist: map[string]int{}, Known: map[string]int{},
		Rule: "random generic functions (1-3 type parameters; any / comparable / union-with-approximation / core-type ~[]E ~map[string]E ~*E constraints; parameter types using the type parameters at depth <= 2 inside slices, pointers, arrays, channels, maps, functions); argument lists built from a random ground substitution (typed values), untyped constants for bare type parameters, optional explicit leading type arguments, optional perturbation of one argument type; distinct = distinct (function, call); non-trivial = at least one type argument is inferred"}
	cw := newCaseWriter(a.Out, "C07", "From GV Require Import C07.Model C07.Check.", "c07case", 250, "k1_bad cases", "k2_bad cases")
	cl := newCaseLog(a.Out)
	defer cl.close()
	n := 0
	distinct := map[string]bool{}
	for _, f := range fns {
		ntp := len(f.Constr)
		for k := 0; k < perFn; k++ {
			// a ground substitution respecting the constraints most of the time
			tau := make([]*c07Ty, ntp)
			for i := ntp - 1; i >= 0; i-- {
				switch {
				case f.Constr[i] == "number":
					tau[i] = &c07Ty{K: "atom", Name: []string{"int", "int64", "float64", "gp.MyInt"}[r.Intn(4)]}
				case f.Constr[i] == "comparable":
					tau[i] = &c07Ty{K: "atom", Name: []string{"int", "string", "bool", "gp.MyStr", "float64"}[r.Intn(5)]}
				case f.Constr[i] == "core":
					tau[i] = f.Core[i].subst(tau)
				default:
					tau[i] = c07Ground(r, 1)
				}
				if r.Intn(12) == 0 {
					tau[i] = c07Ground(r, 1) // may violate the constraint
				}
			}
			var args []c07Arg
			constParams := map[int]bool{}
			for _, p := range f.Params {
				if p.K == "param" && r.Intn(3) == 0 {
					c := c07ConstPool[r.Intn(len(c07ConstPool))]
					args = append(args, c07Arg{Const: c.text, Kind: c.kind})
					constParams[p.N] = true
					continue
				}
				args = append(args, c07Arg{T: p.subst(tau)})
			}
			// a type parameter fed by constants keeps only constants (assignability of constants is C05's subject)
			for i, p := range f.Params {
				if p.K == "param" && constParams[p.N] && args[i].Const == "" {
					c := c07ConstPool[r.Intn(len(c07ConstPool))]
					args[i] = c07Arg{Const: c.text, Kind: c.kind}
				}
			}
			if r.Intn(4) == 0 { // perturb one typed argument
				i := r.Intn(len(args))
				if args[i].Const == "" {
					args[i].T = c07Ground(r, 2)
				}
			}
			var explicit []*c07Ty
			if r.Intn(3) == 0 {
				ne := 1 + r.Intn(ntp)
				for i := 0; i < ne; i++ {
					if r.Intn(6) == 0 {
						explicit = append(explicit, c07Ground(r, 1))
					} else {
						explicit = append(explicit, tau[i])
					}
				}
			}
			// mentions of type parameters bound by constants inside composite parameter types stay in-fragment:
			skip := false
			for i, p := range f.Params {
				if args[i].Const == "" && c07Mentions(p, constParams) {
					skip = true // an untyped constant against an otherwise bound parameter: assignability of constants is C05's subject
				}
				if args[i].Const != "" && p.K == "param" && p.N < len(explicit) {
					skip = true
				}
			}
			for _, core := range f.Core {
				if core != nil && c07Mentions(core, constParams) {
					skip = true
				}
			}
			for i, p := range f.Params {
				// a defined type with a composite underlying type against a composite parameter type is
				// unified through its underlying type (inexact unification): outside the modelled fragment
				if x := args[i]; x.Const == "" && p.K != "param" && p.K != "atom" && x.T.K == "atom" && (x.T.Name == "gp.MySlice" || x.T.Name == "gp.MyMap") {
					skip = true
				}
			}
			if skip {
				continue
			}
			c := c07Case{Fn: f, Decl: f.decl(), Args: args, Explicit: explicit}
			// source form of the call
			var ps, as []string
			for i, x := range args {
				if x.Const != "" {
					as = append(as, x.Const)
				} else {
					ps = append(ps, fmt.Sprintf("a%d %s", i, x.T.src(nil)))
					as = append(as, fmt.Sprintf("a%d", i))
				}
			}
			inst := ""
			if len(explicit) > 0 {
				var es []string
				for _, e := range explicit {
					es = append(es, e.src(nil))
				}
				inst = "[" + strings.Join(es, ", ") + "]"
			}
			c.Call = fmt.Sprintf("func t(%s) { _ = gp.%s%s(%s) }", strings.Join(ps, ", "), f.Name, inst, strings.Join(as, ", "))
			// go/types
			goT, goOK := c07GoTypes(impG, c.Call)
			// builder
			bT, bOK, bErr := c07Builder(impB, gpB, f, args, explicit)
			enc := func(t types.Type, ok bool) (string, string) {
				if !ok {
					return "rejected", "None"
				}
				named, isN := t.(*types.Named)
				if !isN || named.TypeArgs() == nil {
					return "?" + t.String(), "None"
				}
				var ss, cs []string
				for i := 0; i < named.TypeArgs().Len(); i++ {
					g, ok := c07FromGo(named.TypeArgs().At(i))
					if !ok {
						return "?" + t.String(), "None"
					}
					ss = append(ss, g.src(nil))
					cs = append(cs, g.coq())
				}
				return strings.Join(ss, ", "), "(Some " + coqList(cs) + ")"
			}
			var gc, bc string
			c.Go, gc = enc(goT, goOK)
			c.Builder, bc = enc(bT, bOK)
			if !bOK {
				c.Builder = "rejected: " + c06Short(bErr)
			}
			m.DirectRuns++
			if (goOK != bOK) || (goOK && c.Go != c.Builder) {
				m.Direct = append(m.Direct, directViolation{Case: n, What: fmt.Sprintf("%s; call %s: builder infers [%s], go/types [%s]", f.decl(), c.Call, c.Builder, c.Go), Replay: c})
			}
			// Coq case
			var cons, pcs, acs, ecs []string
			for i, cn := range f.Constr {
				switch cn {
				case "any":
					cons = append(cons, "CAny")
				case "comparable":
					cons = append(cons, "CComparable")
				case "number":
					cons = append(cons, "(CUnion [(true, 1%N); (true, 7%N); (true, 3%N)])")
				default:
					cons = append(cons, "(CCore "+f.Core[i].coq()+")")
				}
			}
			for _, p := range f.Params {
				pcs = append(pcs, p.coq())
			}
			for _, x := range args {
				if x.Const != "" {
					acs = append(acs, fmt.Sprintf("(AConst %d)", x.Kind))
				} else {
					acs = append(acs, "(ATyped "+x.T.coq()+")")
				}
			}
			for _, e := range explicit {
				ecs = append(ecs, e.coq())
			}
			cw.add(fmt.Sprintf("mkCase %s %s %s %s %s %s", coqList(cons), coqList(pcs), coqList(acs), coqList(ecs), bc, gc))
			cl.add(c)
			if bOK {
				m.Dist["accepted"]++
			} else {
				m.Dist["rejected"]++
			}
			if len(explicit) > 0 {
				m.Dist["with explicit type arguments"]++
			}
			key := f.Name + c.Call
			if !distinct[key] {
				distinct[key] = true
			}
			if len(m.Samples) < 6 && n%53 == 0 {
				m.Samples = append(m.Samples, c)
			}
			n++
		}
	}
	c07Extras(m, r, impB, impG, gpB, a.Tier)
	cw.flush()
	m.Cases = n
	m.Distinct = len(distinct)
	m.Files = cw.files
	return writeJSON(filepath.Join(a.Out, "meta.json"), m)
}

func c07Mentions(t *c07Ty, ps map[int]bool) bool {
	if t.K == "param" {
		return ps[t.N]
	}
	for _, s := range t.Sub {
		if c07Mentions(s, ps) {
			return true
		}
	}
	return false
}

func c07GoTypes(imp types.Importer, call string) (types.Type, bool) {
	fset := token.NewFileSet()
	f, err := parser.ParseFile(fset, "main.go", "package main\nimport \"gp\"\n"+call+"\n", 0)
	if err != nil {
		return nil, false
	}
	info := &types.Info{Types: map[ast.Expr]types.TypeAndValue{}}
	_, err = (&types.Config{Importer: imp}).Check("main", fset, []*ast.File{f}, info)
	if err != nil {
		return nil, false
	}
	var res types.Type
	ast.Inspect(f, func(n ast.Node) bool {
		if as, ok := n.(*ast.AssignStmt); ok && len(as.Rhs) == 1 {
			res = info.TypeOf(as.Rhs[0])
		}
		return true
	})
	return res, res != nil
}

func c07Builder(imp types.Importer, gp *types.Package, f *c07Fn, args []c07Arg, explicit []*c07Ty) (t types.Type, ok bool, msg string) {
	var errs []string
	defer func() {
		if e := recover(); e != nil {
			t, ok, msg = nil, false, fmt.Sprint(e)
		}
		if ok && len(errs) > 0 {
			t, ok, msg = nil, false, errs[0]
		}
	}()
	pkg := gogen.NewPackage("", "main", &gogen.Config{Fset: token.NewFileSet(), Importer: imp, HandleErr: func(err error) { errs = append(errs, err.Error()) }})
	ref := pkg.Import("gp")
	var params []*types.Var
	for i, x := range args {
		if x.Const == "" {
			params = append(params, types.NewParam(token.NoPos, pkg.Types, fmt.Sprintf("a%d", i), x.T.goType(gp)))
		} else {
			params = append(params, nil)
		}
	}
	var ps []*types.Var
	for _, p := range params {
		if p != nil {
			ps = append(ps, p)
		}
	}
	cb := pkg.NewFunc(nil, "t", types.NewTuple(ps...), nil, false).BodyStart(pkg)
	cb.Val(ref.Ref(f.Name))
	if len(explicit) > 0 {
		for _, e := range explicit {
			cb.Typ(e.goType(gp))
		}
		cb.Index(len(explicit), 0)
	}
	for i, x := range args {
		if x.Const == "" {
			cb.Val(params[i])
		} else {
			for _, c := range c07ConstPool {
				if c.text == x.Const {
					cb.Val(c.val)
				}
			}
		}
	}
	cb.Call(len(args))
	e := cb.InternalStack().Get(-1)
	return e.Type, true, ""
}


// variadic type-parameter elements, and references to generic functions with partial explicit
// type-argument lists that are not called: direct comparison of the builder with go/types
func c07Extras(m *meta, r *rand.Rand, impB, impG types.Importer, gpB *types.Package, tier string) {
	rounds := 40
	if tier == "thorough" {
		rounds = 400
	}
	typed := []struct{ name, typ string }{{"ai", "int"}, {"af", "float64"}, {"as", "string"}, {"am", "gp.MyInt"}, {"asl", "[]int"}, {"ass", "[]string"}, {"ams", "gp.MySlice"}}
	paramSrc := ""
	for i, t := range typed {
		if i > 0 {
			paramSrc += ", "
		}
		paramSrc += t.name + " " + t.typ
	}
	argPool := []string{"ai", "af", "as", "am", "1", "2.5", `"s"`}
	constVal := map[string]any{"1": 1, "2.5": 2.5, `"s"`: "s"}
	tyOf := func(src string) types.Type {
		switch src {
		case "int", "float64", "string", "bool":
			return types.Universe.Lookup(src).Type()
		case "[]int":
			return types.NewSlice(types.Typ[types.Int])
		case "[]string":
			return types.NewSlice(types.Typ[types.String])
		case "[]func()":
			return types.NewSlice(types.NewSignatureType(nil, nil, nil, nil, nil, false))
		}
		return gpB.Scope().Lookup(strings.TrimPrefix(src, "gp.")).Type()
	}
	run := func(kind, stmt string, build func(pkg *gogen.Package, cb *gogen.CodeBuilder, ref gogen.PkgRef, vars map[string]*types.Var)) {
		src := "func t(" + paramSrc + ") { " + stmt + " }"
		// go/types
		fset := token.NewFileSet()
		f, err := parser.ParseFile(fset, "main.go", "package main\nimport \"gp\"\n"+src+"\n", 0)
		goOK, goT := false, ""
		if err == nil {
			info := &types.Info{Types: map[ast.Expr]types.TypeAndValue{}, Defs: map[*ast.Ident]types.Object{}}
			var first error
			(&types.Config{Importer: impG, Error: func(e error) {
				if first == nil && !strings.Contains(e.Error(), "declared and not used") {
					first = e
				}
			}}).Check("main", fset, []*ast.File{f}, info)
			goOK = first == nil
			ast.Inspect(f, func(n ast.Node) bool {
				if as, ok := n.(*ast.AssignStmt); ok && len(as.Rhs) == 1 && goOK {
					goT = types.TypeString(info.TypeOf(as.Rhs[0]), func(p *types.Package) string { return p.Name() })
				}
				return true
			})
		}
		// builder
		bOK, bT, bErr := false, "", ""
		func() {
			var errs []string
			defer func() {
				if e := recover(); e != nil {
					bOK, bErr = false, fmt.Sprint(e)
				}
				if bOK && len(errs) > 0 {
					bOK, bErr = false, errs[0]
				}
			}()
			pkg := gogen.NewPackage("", "main", &gogen.Config{Fset: token.NewFileSet(), Importer: impB, HandleErr: func(err error) { errs = append(errs, err.Error()) }})
			ref := pkg.Import("gp")
			vars := map[string]*types.Var{}
			var ps []*types.Var
			for _, t := range typed {
				v := types.NewParam(token.NoPos, pkg.Types, t.name, tyOf(t.typ))
				vars[t.name] = v
				ps = append(ps, v)
			}
			cb := pkg.NewFunc(nil, "t", types.NewTuple(ps...), nil, false).BodyStart(pkg)
			build(pkg, cb, ref, vars)
			e := cb.InternalStack().Get(-1)
			bT = types.TypeString(e.Type, func(p *types.Package) string { return p.Name() })
			bOK = true
		}()
		m.DirectRuns++
		m.Dist[kind]++
		if strings.HasPrefix(stmt, "_ = gp.") && kind != "variadic type-parameter element" {
			bT = goT // acceptance only
		}
		if goOK != bOK || (goOK && goT != bT) {
			gs, bs := "rejected", "rejected: "+c06Short(bErr)
			if goOK {
				gs = goT
			}
			if bOK {
				bs = bT
			}
			dv := directViolation{What: fmt.Sprintf("%s: builder %s, go/types %s", stmt, bs, gs), Replay: map[string]any{"kind": kind, "statement": stmt, "builder": bs, "go": gs}}
			if kind == "variadic type-parameter element" && !bOK && goOK && c07MixedConstFirst(stmt) {
				one := 1
				dv.Class = &one
				m.Known["1"]++
			}
			m.Direct = append(m.Direct, dv)
		}
	}
	for k := 0; k < rounds; k++ {
		// (1) variadic
		fn := []string{"First", "Tag", "Sum"}[r.Intn(3)]
		n := 1 + r.Intn(3)
		var args []string
		switch fn {
		case "Tag":
			args = append(args, `"k"`)
		case "Sum":
			args = append(args, []string{"ai", "af", "am", "1", "2.5"}[r.Intn(5)])
		}
		for i := 0; i < n; i++ {
			args = append(args, argPool[r.Intn(len(argPool))])
		}
		stmt := fmt.Sprintf("_ = gp.%s(%s)", fn, strings.Join(args, ", "))
		run("variadic type-parameter element", stmt, func(pkg *gogen.Package, cb *gogen.CodeBuilder, ref gogen.PkgRef, vars map[string]*types.Var) {
			cb.Val(ref.Ref(fn))
			for _, a := range args {
				if v, ok := vars[a]; ok {
					cb.Val(v)
				} else if a == `"k"` {
					cb.Val("k")
				} else {
					cb.Val(constVal[a])
				}
			}
			cb.Call(len(args))
		})
		// (2) partial explicit type arguments, the function is referenced but not called
		type ref struct {
			fn    string
			targs []string
		}
		refs := []ref{{"Loader", []string{"int"}}, {"Loader", []string{"int", "string"}}, {"At", []string{"[]int"}}, {"At", []string{"int"}}, {"SumOf", []string{"[]int"}}, {"SumOf", []string{"[]string"}},
			{"SumOf", []string{"gp.MySlice"}}, {"Find", []string{"[]string"}}, {"Find", []string{"[]func()"}}, {"Pair2", []string{"string"}}, {"Pair2", []string{"[]int"}}, {"Pair2", []string{"int", "bool"}}}
		rf := refs[r.Intn(len(refs))]
		form := []string{"_ = %s", "v := %s; _ = v"}[r.Intn(2)]
		expr := fmt.Sprintf("gp.%s[%s]", rf.fn, strings.Join(rf.targs, ", "))
		stmt = fmt.Sprintf(form, expr)
		define := strings.HasPrefix(form, "v")
		run("partial instantiation, not called", stmt, func(pkg *gogen.Package, cb *gogen.CodeBuilder, ref gogen.PkgRef, vars map[string]*types.Var) {
			if define {
				cb.DefineVarStart(token.NoPos, "v")
			} else {
				cb.VarRef(nil)
			}
			cb.Val(ref.Ref(rf.fn))
			for _, t := range rf.targs {
				cb.Typ(tyOf(t))
			}
			cb.Index(len(rf.targs), 0)
			if define {
				cb.EndInit(1)
				cb.Val(cb.Scope().Lookup("v")) // the type the builder gave v
			} else {
				cb.Assign(1)
				cb.Val(0) // nothing to observe besides acceptance
			}
		})
	}
}

// the first variadic argument is an untyped constant and a later one has another (default) type:
// the builder takes the element type from the first argument (known finding C07-a)
func c07MixedConstFirst(stmt string) bool {
	i := strings.Index(stmt, "(")
	args := strings.Split(strings.TrimSuffix(stmt[i+1:], ")"), ", ")
	if strings.Contains(stmt, "gp.Tag(") || strings.Contains(stmt, "gp.Sum(") {
		if len(args) < 2 {
			return false
		}
		whole := args
		args = args[1:]
		if len(args) < 2 && !strings.Contains(stmt, "gp.Sum(") {
			return false
		}
		_ = whole
	} else if len(args) < 2 {
		return false
	}
	isConst := func(a string) bool { return a == "1" || a == "2.5" || a == `"s"` }
	return isConst(args[0])
}
